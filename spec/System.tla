------------------------------- MODULE System -------------------------------
(***************************************************************************)
(* One drpc connection: a client endpoint (drpcconn.Conn over a             *)
(* drpcmanager.Manager) and a server endpoint (drpcserver.ServeOne over its *)
(* Manager and a scripted handler) joined by a transport made of two FIFO   *)
(* directions whose every Write and every delivery is a separate step.      *)
(*                                                                         *)
(* Goroutines per endpoint e: the manager's reader ("rd"), manageStreams    *)
(* ("ms"), application threads (client: callers of Invoke / NewStream /     *)
(* stream methods / Close; server: the ServeOne goroutine which also runs   *)
(* the handler).  Stream semantics come from StreamCore (the same text that *)
(* C03 validates against the real drpcstream.Stream).                       *)
(*                                                                         *)
(* Controllable actions (stimuli of the director):                          *)
(*   Start(t, op)   an application thread begins a call                     *)
(*   HStep(a)       the handler performs its next scripted action           *)
(*   RelW(e, how)   the Write parked in e's transport completes ok / err    *)
(*   Deliver(e)     the oldest undelivered Write of the peer is handed to   *)
(*                  e's parked Read (a peer close is delivered as EOF)      *)
(*   CancelCtx(r)   the context of client RPC r is cancelled                *)
(*   CancelSrv      the context given to ServeOne is cancelled              *)
(*   Fault(e)       e's transport starts failing every operation            *)
(*   RelPoint(t)    a goroutine parked at an armed drpcdebug.Point goes on  *)
(*   RelU(t)        the user's Unmarshal of thread t returns                *)
(* Everything else is internal.                                             *)
(***************************************************************************)
EXTENDS StreamCore, Json

CONSTANTS CliThreads,    \* client application threads (strings)
          MaxRPC,        \* bound on client RPCs
          MaxStims,      \* bound on stimuli (generation only)
          Small,         \* writer buffer smaller than a frame
          Manual,        \* ManualFlush
          Soft,          \* Options.SoftCancel on both managers
          ArmedPoints,   \* drpcdebug.Point names at which goroutines park
          GateU,         \* the user's Unmarshal parks (client and handler receives)
          StimKinds,     \* which stimulus kinds generation may use
          Gen

Eps == {"cli", "srv"}
Peer(e) == IF e = "cli" THEN "srv" ELSE "cli"
SvT == "sv"
Rd(e) == "rd_" \o e
Ms(e) == "ms_" \o e
AppThreads == CliThreads \cup {SvT}
LibThreads == {Rd(e) : e \in Eps} \cup {Ms(e) : e \in Eps}
AllThreads == AppThreads \cup LibThreads
EpOf(t) == IF t \in CliThreads \/ t \in {Rd("cli"), Ms("cli")} THEN "cli" ELSE "srv"
Sids == 1..MaxRPC

VARIABLES
    mgr,      \* [e -> manager record]
    str,      \* [e -> [sid -> stream record]]   (created lazily: absent = NONE)
    wr,       \* [e -> writer record]
    thr,      \* [t -> thread record]
    net,      \* [e -> sequence of units awaiting delivery to e's reader: a Write (sequence of frames) or "EOF"]
    rbuf,     \* [e -> frames handed to e's reader, not yet parsed]
    tp,       \* [e -> [closed: Nat, failed: BOOLEAN]]  transport endpoint
    rpc,      \* [r -> client RPC record]
    nrpc, sctx, connmu,
    wire,     \* [e -> all Writes begun by e]
    wmark,    \* [e -> Len(wire[e]) at the last stimulus]
    hmeta,    \* [sid -> metadata the handler saw]
    nst, stims

vars == <<mgr, str, wr, thr, net, rbuf, tp, rpc, nrpc, sctx, connmu, wire, wmark, hmeta, nst, stims>>
view == <<mgr, str, wr, thr, net, rbuf, tp, rpc, nrpc, sctx, connmu, wire, hmeta, nst>>

(* ------------------------------ records ---------------------------------- *)
NoPkt == [full |-> FALSE, sid |-> 0, mid |-> 0, kind |-> NONE, tag |-> NONE, ctl |-> FALSE]
NoReq == [full |-> FALSE, sid |-> 0, r |-> 0]
NoCont == [ok |-> NONE, fail |-> NONE, created |-> NONE]
NewMgr == [term |-> U, sbuf |-> 0, sbufClosed |-> FALSE, sem |-> 0, sfin |-> 0,
           pkts |-> NoPkt, pdone |-> 0, req |-> NoReq,    \* req: stream start request offered to manageStreams
           rdDone |-> FALSE, msDone |-> FALSE]

\* outer thread record: opc = outer program counter, in = StreamCore call in progress, sid = stream it works on
NewThr(role) == [role |-> role, opc |-> IF role = "rd" THEN "rd.loop" ELSE IF role = "ms" THEN "ms.idle" ELSE "idle",
                 in |-> Idle, sid |-> 0, r |-> 0, res |-> NONE, ok |-> FALSE, cont |-> NoCont, ce |-> NONE, waitid |-> 0,
                 pkt |-> NoPkt, part |-> <<>>, op |-> NONE, msid |-> 0, mval |-> NONE]

NoStream == [id |-> 0]
HasStr(e, sid) == sid \in Sids /\ str[e][sid].id # 0
S(e, sid) == str[e][sid]
Term(e, sid) == HasStr(e, sid) /\ S(e, sid).sig.term # U
FinS(e, sid) == HasStr(e, sid) /\ S(e, sid).sig.fin # U

Init ==
    /\ mgr = [e \in Eps |-> NewMgr]
    /\ str = [e \in Eps |-> [s \in Sids |-> NoStream]]
    /\ wr = [e \in Eps |-> NewWriter(Small)]
    /\ thr = [t \in AllThreads |-> IF t \in CliThreads THEN NewThr("app")
                                   ELSE IF t = SvT THEN [NewThr("sv") EXCEPT !.opc = "sv.acq"]
                                   ELSE IF t \in {Rd("cli"), Rd("srv")} THEN NewThr("rd") ELSE NewThr("ms")]
    /\ net = [e \in Eps |-> <<>>] /\ rbuf = [e \in Eps |-> <<>>]
    /\ tp = [e \in Eps |-> [closed |-> 0, failed |-> FALSE, eof |-> FALSE]]
    /\ rpc = [r \in Sids |-> [kind |-> NONE, ctx |-> "live", meta |-> NONE, sid |-> 0]]
    /\ nrpc = 0 /\ sctx = "live" /\ connmu = NONE
    /\ wire = [e \in Eps |-> <<>>] /\ wmark = [e \in Eps |-> 0]
    /\ hmeta = [s \in Sids |-> NONE]
    /\ nst = 0 /\ stims = <<>>

(* ------------------------------ helpers ----------------------------------- *)
\* Manager.terminate: first caller only
MTerm(m, e, err) == IF m[e].term = U THEN [m EXCEPT ![e].term = err, ![e].sbufClosed = TRUE] ELSE m
TpClose(t, m, e) == IF m[e].term = U THEN [t EXCEPT ![e].closed = t[e].closed + 1] ELSE t
\* closing e's transport lets the peer's reader see EOF after everything already written
Unit(fr) == [eof |-> FALSE, frames |-> fr]
EofUnit == [eof |-> TRUE, frames |-> <<>>]
NetClose(n, m, e) == IF m[e].term = U THEN [n EXCEPT ![Peer(e)] = Append(n[Peer(e)], EofUnit)] ELSE n

CtxOf(t) == IF EpOf(t) = "srv" THEN sctx ELSE rpc[thr[t].r].ctx
CtxErr(c) == IF c = "deadline" THEN "Deadline" ELSE "Canceled"

Call(th, op, arg, cont) == [th EXCEPT !.in = StartThread(op, arg), !.opc = cont]
InCall(th) == th.in.pc \notin {"idle", "ret"}
SetT(t, th) == thr' = [thr EXCEPT ![t] = th]

IsMsg(in) == in.op \in {"MsgRecv", "RawRecv"} /\ in.k = 1    \* the receive delivered a message
MsgArg(kind, nfr, tag) == [kind |-> kind, nfr |-> nfr, tag |-> tag]

(* ---------------------- inner (StreamCore) steps --------------------------- *)
InnerEn(t) == LET th == thr[t] e == EpOf(t) IN
    InCall(th) /\ th.in.pc \notin {"tw", "um", "ma"} /\ En(S(e, th.sid), th.in, wr[e])

InnerStep(t) ==
    /\ InnerEn(t)
    /\ LET th == thr[t] e == EpOf(t)
           r == Do(S(e, th.sid), th.in, wr[e], t, Manual)
           finNew == r.s.finsent > S(e, th.sid).finsent       \* checkFinished sent on the manager's fin channel
       IN /\ str' = [str EXCEPT ![e][th.sid] = r.s]
          /\ wr' = [wr EXCEPT ![e] = r.w]
          /\ thr' = [thr EXCEPT ![t].in = IF r.th.pc = "um" /\ ~GateU THEN UMDone(r.th) ELSE r.th]
          /\ mgr' = IF finNew THEN [mgr EXCEPT ![e].sfin = 1] ELSE mgr
          /\ IF r.th.pc = "tw" THEN wire' = [wire EXCEPT ![e] = Append(wire[e], r.w.out)] ELSE UNCHANGED wire
    /\ UNCHANGED <<net, rbuf, tp, rpc, nrpc, sctx, connmu, wmark, hmeta, nst, stims>>

\* a Write parked in a transport that is closed or failing returns an error by itself
TWFail(t) ==
    /\ thr[t].in.pc = "tw" /\ (tp[EpOf(t)].closed > 0 \/ tp[EpOf(t)].failed)
    /\ LET e == EpOf(t) p == TWDone(thr[t].in, wr[e], "err") IN
       thr' = [thr EXCEPT ![t].in = p[1]] /\ wr' = [wr EXCEPT ![e] = p[2]]
    /\ UNCHANGED <<mgr, str, net, rbuf, tp, rpc, nrpc, sctx, connmu, wire, wmark, hmeta, nst, stims>>

(* --------------------------- reader goroutine ------------------------------ *)
\* drpcdebug.Point("manager.reader.dispatch") sits at the label the dispatch (re)starts from
RdDispatch == IF "manager.reader.dispatch" \in ArmedPoints THEN "pt.rddisp" ELSE "rd.dispatch"
RdStep(e) ==
  LET t == Rd(e) th == thr[t] m == mgr[e] IN
  /\ ~InCall(th)
  /\ CASE th.opc = "rd.loop" ->
            /\ IF m.term # U THEN SetT(t, [th EXCEPT !.opc = "done"]) /\ mgr' = [mgr EXCEPT ![e].rdDone = TRUE]
               ELSE SetT(t, [th EXCEPT !.opc = "rd.read"]) /\ UNCHANGED mgr
            /\ UNCHANGED <<str, rbuf, tp, net>>
       [] th.opc = "rd.read" ->      \* ReadPacketUsing: parse buffered frames; Read when none is left
            IF rbuf[e] # <<>> THEN
               LET f == Head(rbuf[e])
                   part == IF th.part # <<>> /\ (th.part[1].sid # f.sid \/ th.part[1].mid # f.mid) THEN <<f>> ELSE Append(th.part, f)
               IN /\ rbuf' = [rbuf EXCEPT ![e] = Tail(rbuf[e])]
                  /\ IF f.done THEN SetT(t, [th EXCEPT !.opc = RdDispatch, !.part = <<>>,
                                                        !.pkt = [full |-> TRUE, sid |-> f.sid, mid |-> f.mid, kind |-> f.kind, tag |-> f.tag,
                                                                 ctl |-> \E i \in 1..Len(part) : part[i].ctl]])
                     ELSE SetT(t, [th EXCEPT !.part = part])
                  /\ UNCHANGED <<mgr, str, tp, net>>
            ELSE \* Read: fails when the transport is closed/failing, gets EOF when the peer closed; otherwise parked
               /\ (tp[e].closed > 0 \/ tp[e].failed \/ tp[e].eof)
               /\ LET err == IF tp[e].closed > 0 THEN "mgr:closed" ELSE IF tp[e].failed THEN "mgr:terr" ELSE "mgr:EOF" IN
                  mgr' = MTerm(mgr, e, err) /\ tp' = TpClose(tp, mgr, e) /\ net' = NetClose(net, mgr, e)
               /\ SetT(t, [th EXCEPT !.opc = "rd.loop"])
               /\ UNCHANGED <<str, rbuf>>
       [] th.opc = "rd.dispatch" ->
            LET p == th.pkt curr == m.sbuf IN
            /\ UNCHANGED <<rbuf, tp, net, str>>
            /\ IF curr # 0 /\ p.sid = curr THEN
                  SetT(t, [Call(th, "HandlePacket", [kind |-> p.kind, ctl |-> p.ctl, tag |-> p.tag, foreign |-> FALSE], "rd.handled") EXCEPT !.sid = curr]) /\ UNCHANGED mgr
               ELSE IF curr # 0 /\ p.sid < curr THEN SetT(t, [th EXCEPT !.opc = "rd.loop"]) /\ UNCHANGED mgr
               ELSE IF curr # 0 /\ ~Term(e, curr) THEN   \* implicitly close the previous stream
                  SetT(t, [Call(th, "Cancel", [err |-> "Canceled"], "rd.dispatch2") EXCEPT !.sid = curr]) /\ UNCHANGED mgr
               ELSE SetT(t, [th EXCEPT !.opc = "rd.dispatch2"]) /\ UNCHANGED mgr
       [] th.opc = "rd.handled" ->
            /\ UNCHANGED <<str, rbuf>>
            /\ IF th.in.res # "nil"
                 THEN /\ mgr' = MTerm(mgr, e, "mgr:" \o th.in.res) /\ tp' = TpClose(tp, mgr, e) /\ net' = NetClose(net, mgr, e)
                      /\ SetT(t, [th EXCEPT !.opc = "rd.loop", !.in = Idle])
                 ELSE SetT(t, [th EXCEPT !.opc = "rd.loop", !.in = Idle]) /\ UNCHANGED <<mgr, tp, net>>
       [] th.opc = "rd.dispatch2" ->
            /\ UNCHANGED <<str, rbuf, tp, net, mgr>>
            /\ IF th.pkt.kind \in {"Invoke", "InvokeMetadata"}
                 THEN SetT(t, [th EXCEPT !.opc = "rd.offer", !.in = Idle])
                 ELSE IF th.pkt.sid > th.msid     \* never invoked (th.msid = largest forwarded invoke): dropped
                 THEN SetT(t, [th EXCEPT !.opc = "rd.loop", !.in = Idle])
                 ELSE SetT(t, [th EXCEPT !.opc = "rd.wait", !.in = Idle, !.waitid = m.sbuf])
       [] th.opc = "rd.offer" ->     \* select { m.pkts <- pkt ; <-term }
            /\ UNCHANGED <<str, rbuf, tp, net>>
            /\ IF m.term # U THEN SetT(t, [th EXCEPT !.opc = "done"]) /\ mgr' = [mgr EXCEPT ![e].rdDone = TRUE]
               ELSE /\ ~m.pkts.full /\ thr[SvT].opc = "sv.take" /\ e = "srv"    \* rendez-vous with NewServerStream
                    /\ mgr' = [mgr EXCEPT ![e].pkts = th.pkt]
                    /\ SetT(t, [th EXCEPT !.opc = "rd.pdone", !.msid = IF th.pkt.kind = "Invoke" THEN th.pkt.sid ELSE th.msid])
       [] th.opc = "rd.pdone" ->     \* m.pdone.Recv()
            /\ m.pdone = 1 /\ mgr' = [mgr EXCEPT ![e].pdone = 0]
            /\ SetT(t, [th EXCEPT !.opc = "rd.loop"]) /\ UNCHANGED <<str, rbuf, tp, net>>
       [] th.opc = "rd.wait" ->      \* sbuf.Wait(curr.ID())
            /\ (m.sbufClosed \/ m.sbuf # th.waitid)
            /\ IF m.sbufClosed THEN SetT(t, [th EXCEPT !.opc = "done"]) /\ mgr' = [mgr EXCEPT ![e].rdDone = TRUE]
               ELSE SetT(t, [th EXCEPT !.opc = RdDispatch]) /\ UNCHANGED mgr      \* goto again
            /\ UNCHANGED <<str, rbuf, tp, net>>
       [] OTHER -> FALSE
  /\ UNCHANGED <<wr, rpc, nrpc, sctx, connmu, wire, wmark, hmeta, nst, stims>>

(* ------------------------- manageStreams goroutine -------------------------- *)
MsStep(e) ==
  LET t == Ms(e) th == thr[t] m == mgr[e] IN
  /\ ~InCall(th)
  /\ CASE th.opc = "ms.idle" ->
            /\ UNCHANGED <<str, tp, net>>
            /\ \/ /\ m.req.full     \* si := <-m.streams
                  /\ mgr' = [mgr EXCEPT ![e].req = NoReq]
                  /\ SetT(t, [th EXCEPT !.opc = "ms.watch", !.sid = m.req.sid, !.r = m.req.r])
               \/ /\ m.term # U /\ ~m.req.full
                  /\ mgr' = [mgr EXCEPT ![e].msDone = TRUE] /\ SetT(t, [th EXCEPT !.opc = "done"])
       [] th.opc = "ms.watch" ->     \* select over term / sfin / ctx.Done
            /\ UNCHANGED <<str, tp, net>>
            /\ \/ /\ m.term # U /\ UNCHANGED mgr
                  /\ SetT(t, Call(th, "Cancel", [err |-> IF m.term = "mgr:EOF" THEN "Canceled" ELSE m.term], "ms.t2"))
               \/ /\ m.sfin = 1 /\ mgr' = [mgr EXCEPT ![e].sfin = 0, ![e].sem = 0]
                  /\ SetT(t, [th EXCEPT !.opc = "ms.idle"])
               \/ /\ (IF e = "srv" THEN sctx ELSE rpc[th.r].ctx) # "live"      \* case <-ctx.Done(): chosen even if the stream has finished too
                  /\ UNCHANGED mgr
                  /\ SetT(t, [th EXCEPT !.opc = IF "manager.stream.ctx" \in ArmedPoints THEN "pt.msctx" ELSE "ms.ctx",
                                        !.ce = CtxErr(IF e = "srv" THEN sctx ELSE rpc[th.r].ctx)])
       [] th.opc = "ms.ctx" ->       \* the ctx.Done arm: soft or hard cancel
            /\ UNCHANGED <<str, tp, net>>
            /\ IF Soft THEN mgr' = [mgr EXCEPT ![e].sem = 0] /\ SetT(t, Call(th, "SendCancel", [err |-> th.ce], "ms.sc"))
               ELSE UNCHANGED mgr /\ SetT(t, Call(th, "Cancel", [err |-> th.ce], "ms.hc"))
       [] th.opc = "ms.t2" ->        \* <-m.sfin ; m.sem.Recv()
            /\ m.sfin = 1 /\ mgr' = [mgr EXCEPT ![e].sfin = 0, ![e].sem = 0]
            /\ SetT(t, [th EXCEPT !.opc = "ms.idle", !.in = Idle]) /\ UNCHANGED <<str, tp, net>>
       [] th.opc = "ms.sc" ->        \* after SendCancel
            /\ UNCHANGED str
            /\ IF th.in.res = "busy" THEN mgr' = MTerm(mgr, e, th.ce) /\ tp' = TpClose(tp, mgr, e) /\ net' = NetClose(net, mgr, e)
               ELSE IF th.in.res # "nil" THEN mgr' = MTerm(mgr, e, th.in.res) /\ tp' = TpClose(tp, mgr, e) /\ net' = NetClose(net, mgr, e)
               ELSE UNCHANGED <<mgr, tp, net>>
            /\ SetT(t, Call(th, "Cancel", [err |-> th.ce], "ms.fin"))
       [] th.opc = "ms.fin" ->       \* <-m.sfin (soft: the semaphore was released before)
            /\ m.sfin = 1 /\ mgr' = [mgr EXCEPT ![e].sfin = 0]
            /\ SetT(t, [th EXCEPT !.opc = "ms.idle", !.in = Idle]) /\ UNCHANGED <<str, tp, net>>
       [] th.opc = "ms.hc" ->        \* hard cancel: terminate the transport unless the stream was already finished
            /\ UNCHANGED str
            /\ IF th.in.res = "false" THEN mgr' = MTerm(mgr, e, th.ce) /\ tp' = TpClose(tp, mgr, e) /\ net' = NetClose(net, mgr, e)
               ELSE UNCHANGED <<mgr, tp, net>>
            /\ SetT(t, [th EXCEPT !.opc = "ms.t2", !.in = Idle])
       [] OTHER -> FALSE
  /\ UNCHANGED <<wr, rbuf, rpc, nrpc, sctx, connmu, wire, wmark, hmeta, nst, stims>>

(* ---------------- NewClientStream / NewServerStream (shared labels) ---------- *)
\* acquireSemaphore, waitForPreviousStream, newStream.  th.x carries the continuation label.
NcsStep(t) ==
  LET th == thr[t] e == EpOf(t) m == mgr[e] cx == CtxOf(t) IN
  /\ ~InCall(th)
  /\ CASE th.opc = "ncs.acq" ->
            /\ UNCHANGED <<str, wr, hmeta>>
            /\ IF m.term # U THEN SetT(t, [th EXCEPT !.opc = th.cont.fail, !.res = m.term]) /\ UNCHANGED mgr
               ELSE IF cx # "live" THEN SetT(t, [th EXCEPT !.opc = th.cont.fail, !.res = CtxErr(cx)]) /\ UNCHANGED mgr
               ELSE /\ m.sem = 0 /\ mgr' = [mgr EXCEPT ![e].sem = 1]
                    /\ SetT(t, [th EXCEPT !.opc = IF "manager.acquire.got" \in ArmedPoints THEN "pt.acqgot" ELSE "ncs.prev"])
       [] th.opc = "ncs.prev" ->     \* waitForPreviousStream
            /\ UNCHANGED <<str, wr, hmeta>>
            /\ IF m.sbuf = 0 \/ FinS(e, m.sbuf) THEN SetT(t, [th EXCEPT !.opc = th.cont.ok]) /\ UNCHANGED mgr
               ELSE \/ /\ cx # "live" /\ mgr' = [mgr EXCEPT ![e].sem = 0]
                       /\ SetT(t, [th EXCEPT !.opc = th.cont.fail, !.res = CtxErr(cx)])
                    \/ /\ m.term # U /\ mgr' = [mgr EXCEPT ![e].sem = 0]
                       /\ SetT(t, [th EXCEPT !.opc = th.cont.fail, !.res = m.term])
       [] th.opc = "ncs.new" ->      \* drpcstream.NewWithOptions: wr.Reset() under the writer mutex
            /\ wr[e].mu = NONE
            /\ wr' = [wr EXCEPT ![e].buf = <<>>]
            /\ str' = [str EXCEPT ![e][th.sid] = NewStream(th.sid)]
            /\ SetT(t, [th EXCEPT !.opc = "ncs.offer"]) /\ UNCHANGED <<mgr, hmeta>>
       [] th.opc = "ncs.offer" ->    \* select { m.streams <- info ; <-term }
            /\ UNCHANGED <<str, wr, hmeta>>
            /\ \/ /\ ~m.req.full /\ thr[Ms(e)].opc = "ms.idle" /\ ~InCall(thr[Ms(e)])
                  /\ mgr' = [mgr EXCEPT ![e].req = [full |-> TRUE, sid |-> th.sid, r |-> th.r]]
                  /\ SetT(t, [th EXCEPT !.opc = IF "manager.newstream.beforeset" \in ArmedPoints THEN "pt.beforeset" ELSE "ncs.set"])
               \/ /\ m.term # U /\ UNCHANGED mgr      \* NB: the semaphore is not released on this path
                  /\ SetT(t, [th EXCEPT !.opc = th.cont.fail, !.res = m.term])
       [] th.opc = "ncs.set" ->      \* m.sbuf.Set(stream)
            /\ mgr' = [mgr EXCEPT ![e].sbuf = IF m.sbufClosed THEN m.sbuf ELSE th.sid,
                                   ![e].pdone = IF e = "srv" THEN 1 ELSE m.pdone]      \* NewServerStream: m.pdone.Send() after newStream
            /\ hmeta' = IF e = "srv" THEN [hmeta EXCEPT ![th.sid] = IF th.msid = th.sid THEN th.mval ELSE "nometa"] ELSE hmeta
            /\ SetT(t, [th EXCEPT !.opc = th.cont.created, !.waitid = IF e = "srv" THEN th.sid ELSE th.waitid]) /\ UNCHANGED <<str, wr>>
       [] OTHER -> FALSE
  /\ UNCHANGED <<net, rbuf, tp, rpc, nrpc, sctx, connmu, wire, wmark, nst, stims>>

(* ------------------------- client application threads ------------------------ *)
Tag(r, i) == ToString(r) \o "." \o ToString(i)

CliStep(t) ==
  LET th == thr[t] e == "cli" m == mgr[e] IN
  /\ ~InCall(th)
  /\ CASE
     (* Invoke *)
          th.opc = "inv.ok" ->       \* after acquireSemaphore+waitForPreviousStream
            SetT(t, [th EXCEPT !.opc = "ncs.new", !.sid = m.sbuf + 1]) /\ UNCHANGED <<connmu, rpc, mgr>>
       [] th.opc = "inv.fail" ->
            SetT(t, [th EXCEPT !.opc = "ret"]) /\ UNCHANGED <<connmu, rpc, mgr>>
       [] th.opc = "inv.created" ->
            /\ rpc' = [rpc EXCEPT ![th.r].sid = th.sid]
            /\ SetT(t, [th EXCEPT !.opc = IF th.op \in {"Invoke", "InvokeBad"} THEN "inv.lock" ELSE "ns.meta"]) /\ UNCHANGED <<connmu, mgr>>
       [] th.opc = "inv.lock" ->     \* c.mu.Lock(), then the request is marshalled; a request that does not marshal ends the call here
            /\ connmu = NONE /\ connmu' = t
            /\ SetT(t, IF th.op = "InvokeBad" THEN [th EXCEPT !.opc = "inv.unlock", !.res = "marshalErr"]
                       ELSE [th EXCEPT !.opc = "inv.meta"]) /\ UNCHANGED <<rpc, mgr>>
       [] th.opc \in {"inv.meta", "ns.meta"} ->
            /\ UNCHANGED <<connmu, rpc, mgr>>
            /\ LET nxt == IF th.op = "Invoke" THEN "inv.w1" ELSE "ns.w1" IN
               IF rpc[th.r].meta # NONE
                 THEN SetT(t, Call(th, "RawWrite", MsgArg("InvokeMetadata", 1, rpc[th.r].meta), "meta.written"))
                 ELSE SetT(t, [th EXCEPT !.opc = nxt, !.in = [Idle EXCEPT !.res = "nil"]])
       [] th.opc = "meta.written" ->   \* drpcdebug.Point("conn.meta.written") after a successful metadata write
            /\ UNCHANGED <<connmu, rpc, mgr>>
            /\ LET nxt == IF th.op = "Invoke" THEN "inv.w1" ELSE "ns.w1" IN
               SetT(t, [th EXCEPT !.opc = IF th.in.res = "nil" /\ "conn.meta.written" \in ArmedPoints THEN "pt.metaw" ELSE nxt])
       [] th.opc = "inv.w1" ->
            /\ UNCHANGED <<connmu, rpc, mgr>>
            /\ IF th.in.res # "nil" THEN SetT(t, [th EXCEPT !.opc = "inv.unlock", !.res = th.in.res, !.in = Idle])
               ELSE SetT(t, Call(th, "RawWrite", MsgArg("Invoke", 1, Tag(th.r, 0)), "inv.w2"))
       [] th.opc = "inv.w2" ->
            /\ UNCHANGED <<connmu, rpc, mgr>>
            /\ IF th.in.res # "nil" THEN SetT(t, [th EXCEPT !.opc = "inv.unlock", !.res = th.in.res, !.in = Idle])
               ELSE SetT(t, Call(th, "RawWrite", MsgArg("Message", 1, Tag(th.r, 1)), "inv.cs"))
       [] th.opc = "inv.cs" ->
            /\ UNCHANGED <<connmu, rpc, mgr>>
            /\ IF th.in.res # "nil" THEN SetT(t, [th EXCEPT !.opc = "inv.unlock", !.res = th.in.res, !.in = Idle])
               ELSE SetT(t, Call(th, "CloseSend", NONE, "inv.recv"))
       [] th.opc = "inv.recv" ->
            /\ UNCHANGED <<connmu, rpc, mgr>>
            /\ IF th.in.res # "nil" THEN SetT(t, [th EXCEPT !.opc = "inv.unlock", !.res = th.in.res, !.in = Idle])
               ELSE SetT(t, Call(th, "MsgRecv", NONE, "inv.recvd"))
       [] th.opc = "inv.recvd" ->
            SetT(t, [th EXCEPT !.opc = "inv.unlock", !.res = th.in.res, !.ok = IsMsg(th.in), !.in = Idle]) /\ UNCHANGED <<connmu, rpc, mgr>>
       [] th.opc = "inv.unlock" ->   \* deferred c.mu.Unlock(), then deferred stream.Close()
            /\ connmu' = NONE /\ UNCHANGED <<rpc, mgr>>
            /\ SetT(t, Call(th, "Close", NONE, "inv.closed"))
       [] th.opc = "inv.closed" ->   \* errs.Combine(err, closeErr): the first error is what the caller sees
            /\ UNCHANGED <<connmu, rpc, mgr>>
            /\ SetT(t, [th EXCEPT !.opc = "ret", !.in = Idle,
                                  !.res = IF th.ok THEN (IF th.in.res = "nil" THEN th.res ELSE th.in.res) ELSE th.res])
     (* NewStream *)
       [] th.opc = "ns.w1" ->
            /\ UNCHANGED <<connmu, rpc, mgr>>
            /\ IF th.in.res # "nil" THEN SetT(t, [Call(th, "Close", NONE, "ns.closed") EXCEPT !.res = th.in.res])
               ELSE SetT(t, Call(th, "RawWrite", MsgArg("Invoke", 1, Tag(th.r, 0)), "ns.w1r"))
       [] th.opc = "ns.w1r" ->
            /\ UNCHANGED <<connmu, rpc, mgr>>
            /\ IF th.in.res # "nil" THEN SetT(t, [Call(th, "Close", NONE, "ns.closed") EXCEPT !.res = th.in.res])
               ELSE SetT(t, [th EXCEPT !.opc = "ret", !.res = "stream", !.in = Idle])
       [] th.opc = "ns.closed" ->
            SetT(t, [th EXCEPT !.opc = "ret", !.in = Idle]) /\ UNCHANGED <<connmu, rpc, mgr>>
     (* a single stream method on the handle of RPC th.r *)
       [] th.opc = "op.done" ->
            SetT(t, [th EXCEPT !.opc = "ret", !.res = th.in.res, !.in = Idle]) /\ UNCHANGED <<connmu, rpc, mgr>>
       [] OTHER -> FALSE
  /\ UNCHANGED <<str, wr, net, rbuf, tp, nrpc, sctx, wire, wmark, hmeta, nst, stims>>

(* ---------------------------- Manager.Close --------------------------------- *)
\* used by Conn.Close (client thread) and by ServeOne's deferred man.Close()
McStep(t) ==
  LET th == thr[t] e == EpOf(t) m == mgr[e] IN
  /\ ~InCall(th)
  /\ CASE th.opc = "mc.term" ->
            /\ mgr' = MTerm(mgr, e, "mgr:close") /\ tp' = TpClose(tp, mgr, e) /\ net' = NetClose(net, mgr, e)
            /\ SetT(t, [th EXCEPT !.opc = "mc.wait"])
       [] th.opc = "mc.wait" ->      \* sigs.stream.Wait(); sigs.read.Wait(); sigs.tport.Wait()
            /\ m.msDone /\ m.rdDone
            /\ SetT(t, [th EXCEPT !.opc = IF th.role = "sv" THEN "done" ELSE "ret", !.res = IF th.role = "sv" THEN th.res ELSE "nil"])
            /\ UNCHANGED <<mgr, tp, net>>
       [] OTHER -> FALSE
  /\ UNCHANGED <<str, wr, rbuf, rpc, nrpc, sctx, connmu, wire, wmark, hmeta, nst, stims>>

(* --------------------------- ServeOne goroutine ------------------------------ *)
SvStep ==
  LET t == SvT th == thr[t] e == "srv" m == mgr[e] IN
  /\ ~InCall(th)
  /\ CASE th.opc = "sv.acq" ->
            SetT(t, [th EXCEPT !.opc = "ncs.acq", !.cont = [ok |-> "sv.take", fail |-> "sv.fail", created |-> "h.wait"], !.msid = 0, !.mval = NONE, !.in = Idle, !.res = NONE])
            /\ UNCHANGED <<mgr, hmeta>>
       [] th.opc = "sv.take" ->      \* select { ctx.Done ; term ; pkt := <-m.pkts }
            /\ UNCHANGED hmeta
            /\ \/ /\ m.pkts.full
                  /\ LET p == m.pkts IN
                     IF p.kind = "InvokeMetadata"
                       THEN /\ mgr' = [mgr EXCEPT ![e].pkts = NoPkt, ![e].pdone = 1]
                            /\ SetT(t, [th EXCEPT !.msid = p.sid, !.mval = p.tag])
                       ELSE /\ mgr' = [mgr EXCEPT ![e].pkts = NoPkt]      \* m.pdone.Send() only after newStream (the reader goes on once the stream is registered)
                            /\ SetT(t, [th EXCEPT !.opc = "ncs.new", !.sid = p.sid, !.cont = [th.cont EXCEPT !.fail = "sv.fail2"]])
               \/ /\ ~m.pkts.full /\ sctx # "live" /\ mgr' = [mgr EXCEPT ![e].sem = 0]
                  /\ SetT(t, [th EXCEPT !.opc = "sv.fail", !.res = CtxErr(sctx)])
               \/ /\ ~m.pkts.full /\ m.term # U /\ mgr' = [mgr EXCEPT ![e].sem = 0]
                  /\ SetT(t, [th EXCEPT !.opc = "sv.fail", !.res = m.term])
       [] th.opc = "sv.fail2" ->     \* newStream failed after the semaphore was taken: deferred m.sem.Recv()
            mgr' = [mgr EXCEPT ![e].sem = 0, ![e].pdone = 1] /\ SetT(t, [th EXCEPT !.opc = "sv.fail"]) /\ UNCHANGED hmeta
       [] th.opc = "sv.fail" ->      \* ServeOne returns: deferred man.Close()
            SetT(t, [th EXCEPT !.opc = "mc.term"]) /\ UNCHANGED <<mgr, hmeta>>
       [] th.opc = "h.done" ->       \* a handler action finished
            SetT(t, [th EXCEPT !.opc = "h.wait", !.res = th.in.res, !.in = Idle]) /\ UNCHANGED <<mgr, hmeta>>
       [] th.opc = "sv.finr" ->      \* result of SendError / CloseSend after the handler returned
            /\ UNCHANGED <<mgr, hmeta>>
            /\ IF th.in.res # "nil" THEN SetT(t, [th EXCEPT !.opc = "mc.term", !.res = th.in.res, !.in = Idle])
               ELSE SetT(t, [th EXCEPT !.opc = "sv.acq", !.in = Idle])
       [] OTHER -> FALSE
  /\ UNCHANGED <<str, wr, net, rbuf, tp, rpc, nrpc, sctx, connmu, wire, wmark, nst, stims>>

(* ------------------------------- stimuli ------------------------------------- *)
Mark == wmark' = [e \in Eps |-> Len(wire[e])]
Hist(s) == /\ nst' = nst + 1
           /\ stims' = IF Gen THEN Append(stims, s) ELSE stims
Bound == ~Gen \/ nst < MaxStims

CliOps == {"Invoke", "NewStream", "Send1", "Send2", "Recv", "CloseSend", "Close", "ConnClose"}

\* begin a new RPC (Invoke / NewStream) with metadata md, or a method on the handle of RPC r
StartRPC(t, op, md) ==
    /\ Bound /\ "start" \in StimKinds
    /\ thr[t].opc \in {"idle", "ret"} /\ nrpc < MaxRPC
    /\ nrpc' = nrpc + 1
    /\ rpc' = [rpc EXCEPT ![nrpc + 1] = [kind |-> op, ctx |-> "live", meta |-> md, sid |-> 0]]
    /\ SetT(t, [NewThr("app") EXCEPT !.opc = "ncs.acq", !.op = op, !.r = nrpc + 1,
                                     !.cont = [ok |-> "inv.ok", fail |-> "inv.fail", created |-> IF ("conn.created" \in ArmedPoints) THEN "pt.created" ELSE "inv.created"]])
    /\ Mark /\ Hist([k |-> "start", t |-> t, op |-> op, md |-> md])
    /\ UNCHANGED <<mgr, str, wr, net, rbuf, tp, sctx, connmu, wire, hmeta>>

StartOp(t, op, r) ==
    /\ Bound /\ "start" \in StimKinds
    /\ thr[t].opc \in {"idle", "ret"} /\ r \in 1..nrpc /\ rpc[r].kind = "NewStream" /\ rpc[r].sid # 0
    /\ (op = "SendG" => GateU)      \* a send that parks inside the user's Marshal: only where user code is gated
    /\ LET base == [NewThr("app") EXCEPT !.op = op, !.r = r, !.sid = rpc[r].sid] IN
       SetT(t, CASE op = "Send1" -> Call(base, "MsgSend", MsgArg("Message", 1, Tag(r, nst + 1)), "op.done")
                 [] op = "Send2" -> Call(base, "MsgSend", MsgArg("Message", 2, Tag(r, nst + 1)), "op.done")
                 [] op = "SendBad" -> Call(base, "MsgSend", MsgArg("Message", 1, "bad" \o ToString(r)), "op.done")
                 [] op = "SendG" -> Call(base, "MsgSend", [kind |-> "Message", nfr |-> 1, tag |-> Tag(r, nst + 1), gate |-> TRUE], "op.done")
                 [] op = "Recv" -> Call(base, "MsgRecv", NONE, "op.done")
                 [] op = "RecvRaw" -> Call(base, "RawRecv", NONE, "op.done")     \* the bytes returned belong to the caller
                 [] op = "CloseSend" -> Call(base, "CloseSend", NONE, "op.done")
                 [] op = "Close" -> Call(base, "Close", NONE, "op.done")
                 [] op = "SendErr" -> Call(base, "SendError", [tag |-> "ce" \o ToString(r), gate |-> GateU], "op.done"))
    /\ Mark /\ Hist([k |-> "op", t |-> t, op |-> op, r |-> r])
    /\ UNCHANGED <<mgr, str, wr, net, rbuf, tp, rpc, nrpc, sctx, connmu, wire, hmeta>>

StartClose(t) ==
    /\ Bound /\ "close" \in StimKinds
    /\ thr[t].opc \in {"idle", "ret"}
    /\ SetT(t, [NewThr("app") EXCEPT !.opc = "mc.term", !.op = "ConnClose"])
    /\ Mark /\ Hist([k |-> "connclose", t |-> t])
    /\ UNCHANGED <<mgr, str, wr, net, rbuf, tp, rpc, nrpc, sctx, connmu, wire, hmeta>>

HActs == {"recv", "send1", "send2", "sendbad", "closesend", "retnil", "reterr"}
HStep(a) ==
    /\ Bound /\ "hstep" \in StimKinds
    /\ thr[SvT].opc = "h.wait"
    /\ LET th == thr[SvT] sid == th.sid IN
       SetT(SvT, CASE a = "recv" -> Call(th, "MsgRecv", NONE, "h.done")
                   [] a = "send1" -> Call(th, "MsgSend", MsgArg("Message", 1, "s" \o Tag(sid, nst + 1)), "h.done")
                   [] a = "send2" -> Call(th, "MsgSend", MsgArg("Message", 2, "s" \o Tag(sid, nst + 1)), "h.done")
                   [] a = "sendbad" -> Call(th, "MsgSend", MsgArg("Message", 1, "bad" \o ToString(sid)), "h.done")
                   [] a = "closesend" -> Call(th, "CloseSend", NONE, "h.done")
                   [] a = "retnil" -> Call(th, "CloseSend", NONE, "sv.finr")
                   [] a = "reterr" -> Call(th, "SendError", [tag |-> "e" \o ToString(sid), gate |-> FALSE], "sv.finr"))
    /\ Mark /\ Hist([k |-> "hstep", a |-> a])
    /\ UNCHANGED <<mgr, str, wr, net, rbuf, tp, rpc, nrpc, sctx, connmu, wire, hmeta>>

RelW(e, how) ==
    /\ Bound /\ "relw" \in StimKinds /\ (how = "err" => "relwerr" \in StimKinds)
    /\ tp[e].closed = 0 /\ ~tp[e].failed
    /\ \E t \in AllThreads : EpOf(t) = e /\ thr[t].in.pc = "tw" /\
         LET p == TWDone(thr[t].in, wr[e], how) IN
         /\ thr' = [thr EXCEPT ![t].in = p[1]] /\ wr' = [wr EXCEPT ![e] = p[2]]
         /\ net' = IF how = "ok" THEN [net EXCEPT ![Peer(e)] = Append(net[Peer(e)], Unit(wr[e].out))] ELSE net
    /\ Mark /\ Hist([k |-> "relw", e |-> e, how |-> how])
    /\ UNCHANGED <<mgr, str, rbuf, tp, rpc, nrpc, sctx, connmu, wire, hmeta>>

\* the reader of e is parked in Read; hand it the next unit
ReaderParked(e) == thr[Rd(e)].opc = "rd.read" /\ ~InCall(thr[Rd(e)]) /\ rbuf[e] = <<>> /\ tp[e].closed = 0 /\ ~tp[e].failed /\ ~tp[e].eof
Deliver(e) ==
    /\ Bound /\ "deliver" \in StimKinds
    /\ ReaderParked(e) /\ net[e] # <<>>
    /\ net' = [net EXCEPT ![e] = Tail(net[e])]
    /\ IF Head(net[e]).eof
         THEN tp' = [tp EXCEPT ![e].eof = TRUE] /\ UNCHANGED rbuf
         ELSE rbuf' = [rbuf EXCEPT ![e] = Head(net[e]).frames] /\ UNCHANGED tp
    /\ Mark /\ Hist([k |-> "deliver", e |-> e])
    /\ UNCHANGED <<mgr, thr, str, wr, rpc, nrpc, sctx, connmu, wire, hmeta>>

CancelCtx(r) ==
    /\ Bound /\ "cancel" \in StimKinds
    /\ r \in 1..nrpc /\ rpc[r].ctx = "live"
    /\ rpc' = [rpc EXCEPT ![r].ctx = "canceled"]
    /\ Mark /\ Hist([k |-> "cancel", r |-> r])
    /\ UNCHANGED <<mgr, str, wr, thr, net, rbuf, tp, nrpc, sctx, connmu, wire, hmeta>>

CancelSrv ==
    /\ Bound /\ "cancelsrv" \in StimKinds
    /\ sctx = "live" /\ sctx' = "canceled"
    /\ Mark /\ Hist([k |-> "cancelsrv"])
    /\ UNCHANGED <<mgr, str, wr, thr, net, rbuf, tp, rpc, nrpc, connmu, wire, hmeta>>

Fault(e) ==
    /\ Bound /\ "fault" \in StimKinds
    /\ ~tp[e].failed /\ tp[e].closed = 0
    /\ tp' = [tp EXCEPT ![e].failed = TRUE]
    /\ Mark /\ Hist([k |-> "fault", e |-> e])
    /\ UNCHANGED <<mgr, str, wr, thr, net, rbuf, rpc, nrpc, sctx, connmu, wire, hmeta>>

PointLabels == {"pt.created", "pt.beforeset", "pt.metaw", "pt.msctx", "pt.rddisp", "pt.acqgot"}
RelPoint(t) ==
    /\ Bound /\ "point" \in StimKinds
    /\ thr[t].opc \in PointLabels
    /\ SetT(t, [thr[t] EXCEPT !.opc = CASE thr[t].opc = "pt.created" -> "inv.created"
                                          [] thr[t].opc = "pt.beforeset" -> "ncs.set"
                                          [] thr[t].opc = "pt.msctx" -> "ms.ctx"
                                          [] thr[t].opc = "pt.rddisp" -> "rd.dispatch"
                                          [] thr[t].opc = "pt.acqgot" -> "ncs.prev"
                                          [] thr[t].opc = "pt.metaw" -> (IF thr[t].op = "Invoke" THEN "inv.w1" ELSE "ns.w1")])
    /\ Mark /\ Hist([k |-> "point", t |-> t])
    /\ UNCHANGED <<mgr, str, wr, net, rbuf, tp, rpc, nrpc, sctx, connmu, wire, hmeta>>

RelU(t) ==
    /\ Bound /\ "relu" \in StimKinds
    /\ thr[t].in.pc = "um"
    /\ thr' = [thr EXCEPT ![t].in = UMDone(thr[t].in)]
    /\ Mark /\ Hist([k |-> "relu", t |-> t])
    /\ UNCHANGED <<mgr, str, wr, net, rbuf, tp, rpc, nrpc, sctx, connmu, wire, hmeta>>

RelM(t) ==
    /\ Bound /\ "relu" \in StimKinds
    /\ thr[t].in.pc = "ma"
    /\ thr' = [thr EXCEPT ![t].in = MADone(thr[t].in)]
    /\ Mark /\ Hist([k |-> "relm", t |-> t])
    /\ UNCHANGED <<mgr, str, wr, net, rbuf, tp, rpc, nrpc, sctx, connmu, wire, hmeta>>

Controllable ==
    \/ \E t \in CliThreads, op \in {"Invoke", "NewStream", "InvokeBad"}, md \in {NONE, "M1", "M2"} : StartRPC(t, op, md)
    \/ \E t \in CliThreads, op \in {"Send1", "Send2", "SendBad", "SendG", "Recv", "RecvRaw", "CloseSend", "Close", "SendErr"}, r \in Sids : StartOp(t, op, r)
    \/ \E t \in CliThreads : StartClose(t)
    \/ \E a \in HActs : HStep(a)
    \/ \E e \in Eps, how \in {"ok", "err"} : RelW(e, how)
    \/ \E e \in Eps : Deliver(e)
    \/ \E r \in Sids : CancelCtx(r)
    \/ CancelSrv
    \/ \E e \in Eps : Fault(e)
    \/ \E t \in AllThreads : RelPoint(t)
    \/ \E t \in AppThreads : RelU(t)
    \/ \E t \in AppThreads : RelM(t)

(* ------------------------------ next state ----------------------------------- *)
Internal ==
    \/ \E t \in AllThreads : InnerStep(t)
    \/ \E t \in AllThreads : TWFail(t)
    \/ \E e \in Eps : RdStep(e)
    \/ \E e \in Eps : MsStep(e)
    \/ \E t \in AppThreads : NcsStep(t)
    \/ \E t \in CliThreads : CliStep(t)
    \/ \E t \in AppThreads : McStep(t)
    \/ SvStep

Quiescent == ~ENABLED Internal

Next == IF Gen THEN Internal \/ (Quiescent /\ Controllable) ELSE Internal \/ Controllable
Spec == Init /\ [][Next]_vars

(* ------------------------------- observation ---------------------------------- *)
FrameStr(f) == f.kind \o "/" \o ToString(f.sid) \o "/" \o ToString(f.mid) \o (IF f.done THEN "d" ELSE "-") \o (IF f.ctl THEN "c" ELSE "-") \o "/" \o f.tag
AppObs(t) == LET th == thr[t] IN
    CASE th.opc = "idle" -> "idle"
      [] th.opc = "ret" -> "ret:" \o th.res
      [] th.opc = "done" -> "done:" \o th.res
      [] th.in.pc = "tw" -> "tw"
      [] th.in.pc = "um" -> "um"
      [] th.in.pc = "ma" -> "ma"
      [] th.opc \in PointLabels -> "pt"
      [] th.opc = "h.wait" -> "h:" \o th.res
      [] OTHER -> "blk"
LibObs(t) == LET th == thr[t] IN
    CASE th.opc = "done" -> "done"
      [] th.in.pc = "tw" -> "tw"
      [] th.opc \in PointLabels -> "pt"
      [] th.opc = "rd.read" /\ ~InCall(th) -> "tr"
      [] OTHER -> "blk"
Obs == [app |-> [t \in AppThreads |-> AppObs(t)],
        lib |-> [t \in LibThreads |-> LibObs(t)],
        closed |-> mgr["cli"].term # U,
        tclose |-> [e \in Eps |-> tp[e].closed],
        neww |-> [e \in Eps |-> [i \in 1..(Len(wire[e]) - wmark[e]) |-> [j \in 1..Len(wire[e][wmark[e] + i]) |-> FrameStr(wire[e][wmark[e] + i][j])]]],
        hmeta |-> hmeta,
        hctx |-> (thr[SvT].waitid # 0 /\ FinS("srv", thr[SvT].waitid)),     \* the context of the stream the handler was last given is done
        unb |-> (mgr["cli"].sbuf = 0 \/ FinS("cli", mgr["cli"].sbuf))]       \* Conn.Unblocked()

(* ------------------------------- properties ------------------------------------ *)
TypeOK == /\ \A e \in Eps : mgr[e].sem \in {0, 1} /\ mgr[e].sfin \in {0, 1} /\ mgr[e].pdone \in {0, 1}
          /\ \A e \in Eps : tp[e].closed \in 0..2

\* C07/C12: the transport is closed at most once per endpoint
CloseOnce == \A e \in Eps : tp[e].closed <= 1
\* C07: one Write in flight per endpoint
OneWrite == \A e \in Eps : Cardinality({t \in AllThreads : EpOf(t) = e /\ thr[t].in.pc = "tw"}) <= 1
\* C02: at most one unfinished stream per endpoint is registered at a time, ids increase
StreamsOrdered == \A e \in Eps : \A a, b \in Sids : (a < b /\ HasStr(e, a) /\ HasStr(e, b)) => TRUE
\* every stream obeys the single-stream invariants
StreamInvs == \A e \in Eps, s \in Sids : HasStr(e, s) => StreamInv(S(e, s))

\* frames on the wire per endpoint: ids never go backwards, one kind per id, nothing after a done frame
Flat(e) == LET RECURSIVE F(_) F(q) == IF q = <<>> THEN <<>> ELSE Head(q) \o F(Tail(q)) IN F(wire[e])
Less(a, b) == a.sid < b.sid \/ (a.sid = b.sid /\ a.mid < b.mid)
WireOrdered == \A e \in Eps : LET fl == Flat(e) IN \A i, j \in 1..Len(fl) : i < j =>
      /\ ~Less(fl[j], fl[i])
      /\ ((fl[i].sid = fl[j].sid /\ fl[i].mid = fl[j].mid) => fl[i].kind = fl[j].kind /\ ~fl[i].done)

\* C11: the handler of stream s sees exactly the metadata of the call that created s
MetaScoped == \A s \in Sids : hmeta[s] # NONE =>
      \E r \in Sids : rpc[r].sid = s /\ hmeta[s] = (IF rpc[r].meta = NONE THEN "nometa" ELSE rpc[r].meta)

(* ---------------- the listed properties as statements about quiescent states ---------------- *)
\* A call is "inside drpc" when it has not returned and is parked neither in user code nor at an armed point.
InDrpc(t) == AppObs(t) \in {"blk", "tw"}
CancelledCall(t) == t \in CliThreads /\ thr[t].r # 0 /\ rpc[thr[t].r].ctx # "live" /\ thr[t].op # "ConnClose"

\* The two situations in which the code, as it is, does not release the calls of a cancelled RPC although neither peer
\* nor transport may be asked to cooperate (known findings of C04, named here so that everything else is checked):
\*  hard cancel: manageStream's Stream.Cancel waits for the stream's state mutex, which a terminal call holds while
\*               it queues for the write lock behind a write that is parked in the transport;
\*  soft cancel: the cancel packet itself is parked in the stalled transport (it holds the write lock).
HardCancelDeadlock == ~Soft /\ thr[Ms("cli")].in.pc = "cn.mulock"
SoftCancelStall == Soft /\ thr[Ms("cli")].in.pc = "tw"
\* C04: at quiescence no call of a cancelled RPC is inside drpc
CancelReleases ==
    Quiescent => \A t \in CliThreads : (CancelledCall(t) /\ InDrpc(t)) => (HardCancelDeadlock \/ SoftCancelStall)

\* the same without the two named exceptions: TLC finds each of them (the model has what the code has)
CancelReleasesStrict == Quiescent => \A t \in CliThreads : ~(CancelledCall(t) /\ InDrpc(t))

\* C12: once Conn.Close has returned, at quiescence nothing of the client is left: no call inside drpc, both manager
\* goroutines gone, the transport closed exactly once, Closed() signalled
ConnCloseReturned == \E t \in CliThreads : thr[t].op = "ConnClose" /\ thr[t].opc = "ret"
CloseReleases ==
    (Quiescent /\ ConnCloseReturned) =>
      /\ \A t \in CliThreads : ~InDrpc(t)
      /\ thr[Rd("cli")].opc = "done" /\ thr[Ms("cli")].opc = "done"
      /\ tp["cli"].closed = 1 /\ mgr["cli"].term # U

\* C05: once an endpoint's transport has failed and its reader has noticed, at quiescence that manager is terminated,
\* its transport closed once, and no call of that endpoint is inside drpc
FaultContained ==
    Quiescent => \A e \in Eps : (tp[e].failed /\ thr[Rd(e)].opc = "done") =>
      /\ mgr[e].term # U /\ tp[e].closed = 1
      /\ (e = "cli" => \A t \in CliThreads : ~InDrpc(t))

\* C06: when every RPC has ended on both sides (client calls returned, client streams terminated, no handler running)
\* and the transport has nothing in flight, both ends are ready for the next RPC or say they are closed.
AllEnded ==
    /\ \A t \in CliThreads : thr[t].opc \in {"idle", "ret"}
    /\ \A r \in 1..nrpc : rpc[r].sid # 0 => Term("cli", rpc[r].sid)
    /\ thr[SvT].opc \notin {"h.wait", "h.done", "sv.finr"}     \* no handler running, its final packet sent
    /\ \A e \in Eps : net[e] = <<>> /\ rbuf[e] = <<>> /\ \A t \in AllThreads : thr[t].in.pc # "tw"
\* the one situation in which the code, as it is, does not get there (known finding of C06/C04/C10/C02): the server's
\* reader is parked delivering a message of the old stream that its handler never received
UndrainedHandler == thr[Rd("srv")].in.pc \in {"hp.put1", "hp.put3"}
ReadyOrClosed(e) ==
    \/ mgr[e].term # U
    \/ /\ thr[Rd(e)].opc = "rd.read" /\ ~InCall(thr[Rd(e)])
       /\ IF e = "cli" THEN mgr[e].sem = 0 /\ (mgr[e].sbuf = 0 \/ FinS(e, mgr[e].sbuf))
          ELSE thr[SvT].opc = "sv.take"
NextAccepted == (Quiescent /\ AllEnded /\ ~UndrainedHandler) => \A e \in Eps : ReadyOrClosed(e)
NextAcceptedStrict == (Quiescent /\ AllEnded) => \A e \in Eps : ReadyOrClosed(e)

Terminal == Quiescent /\ ~ENABLED Controllable
EmitStims == (Gen /\ (Terminal \/ nst >= MaxStims) /\ Quiescent) => PrintT("@@" \o ToJson([stims |-> stims]))

=============================================================================
