#!/bin/bash
# usage: detect_some.sh <seeded id>...   -- like detect_all.sh for the listed seeded changes
for id in "$@"; do
  p=${id:0:3}
  out=$(/verif/scripts/try_mutant.sh /verif/seeded/$id/patch.diff $p quick 2>&1)
  rc=$(echo "$out" | grep -o "exit=[0-9]*" | tail -1)
  sig=$(echo "$out" | grep -m1 "signature" | cut -c1-170)
  echo "$id: $rc $sig"
done
