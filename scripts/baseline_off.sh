#!/bin/sh
# Runs the repository's own test suite with the verif guard OFF (no -tags verif),
# the same module list and flags as /root/.vp/BASELINE.json.
# usage: baseline_off.sh [repo-root]
ROOT=${1:-/repo}
export GOFLAGS=-mod=mod GOPROXY=off
rc=0
for m in . internal/backcompat internal/grpccompat internal/integration internal/twirpcompat; do
  (cd "$ROOT/$m" && go test -mod=mod -vet=off -count=1 -timeout 25m ./...) || rc=1
done
exit $rc
