#!/bin/bash
# usage: confirm_mutant.sh <mutant dir with patch.diff, meta.json, demo files> <seeded id>
# Confirms: patch applies to /repo HEAD, tree builds, existing suite passes with it, the demonstration fails with it and passes without it.
# On success copies everything to /verif/seeded/<id>/ with a meta.json.
M=$1; ID=$2
export GOFLAGS=-mod=mod GOPROXY=off
D=$(mktemp -d /tmp/cm-XXXXXX); rmdir $D
git -C /repo worktree add -q --detach $D HEAD || exit 3
cleanup() { git -C /repo worktree remove --force $D >/dev/null 2>&1; }
trap cleanup EXIT
res() { echo "$ID: $1"; }
if ! git -C $D apply --check $M/patch.diff 2>/dev/null; then res "PATCH-DOES-NOT-APPLY"; exit 1; fi
PKG=$(python3 -c "import json;print(json.load(open('$M/meta.json')).get('demo_pkg_dir',''))" 2>/dev/null)
DEMOS=$(ls $M/*_test.go 2>/dev/null)
if [ -z "$DEMOS" ] || [ -z "$PKG" ] || [ ! -d "$D/$PKG" ]; then res "NO-DEMO (pkg=$PKG)"; exit 1; fi
cp $DEMOS $D/$PKG/
TAGS=""; if ls $M/*_verif_test.go >/dev/null 2>&1; then TAGS="-tags verif"; fi
rundemo() { (cd $D/$PKG && timeout 600 go test $TAGS -mod=mod -vet=off -count=1 -run "Demo|${ID:0:3}" . >/tmp/cm-demo-$ID.log 2>&1); }
# without the change
rundemo; WITHOUT=$?
git -C $D apply $M/patch.diff
if ! (cd $D && go build ./... >/dev/null 2>&1); then res "DOES-NOT-BUILD"; exit 1; fi
rundemo; WITH=$?
# existing suite with the change (demo files removed)
rm -f $D/$PKG/zz_demo_*
SUITE=0
for m in . internal/backcompat internal/grpccompat internal/integration internal/twirpcompat; do
  (cd $D/$m && timeout 1500 go test -mod=mod -vet=off -count=1 -timeout 25m ./... >/tmp/cm-suite-$ID.log 2>&1) || SUITE=1
done
if [ $WITHOUT -eq 0 ] && [ $WITH -ne 0 ] && [ $SUITE -eq 0 ]; then
  mkdir -p /verif/seeded/$ID; cp $M/patch.diff $DEMOS /verif/seeded/$ID/
  python3 - <<PY
import json
m=json.load(open('$M/meta.json'))
out={"property":m.get("property","$ID"[:3]),"summary":m.get("summary"),"needs":m.get("needs"),"demo_pkg_dir":"$PKG",
 "confirmed":{"patch_applies_to":"/repo HEAD at confirmation","suite_passes_with_change":True,"demo_without_change":"pass","demo_with_change":"fail",
 "ran":"scripts/confirm_mutant.sh: go test -run Demo in a scratch worktree with and without patch.diff; the repository suite (5 modules) with the patch"}}
json.dump(out,open('/verif/seeded/$ID/meta.json','w'),indent=1)
PY
  res "CONFIRMED"
else
  res "NOT-CONFIRMED without=$WITHOUT with=$WITH suite=$SUITE"
fi
