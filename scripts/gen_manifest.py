#!/usr/bin/env python3
# Generates /verif/MANIFEST.json from scripts/manifest_src.json (one source of truth for the per-check texts).
import json, subprocess, sys, os
ROOT = os.environ.get('VERIF_ROOT', '/verif')
src = json.load(open(ROOT + '/scripts/manifest_src.json'))
import glob, os
for f in sorted(glob.glob(ROOT + '/scripts/manifest.d/C*.json')):
    src['checks'][os.path.basename(f)[:-5]] = json.load(open(f))
props = [json.loads(l) for l in open(ROOT + '/properties.jsonl')]
ids = [p['id'] for p in props]
checks = []
for pid in ids:
    c = src['checks'].get(pid)
    if not c: continue
    checks.append({
        "property_id": pid,
        "quick_cmd": f"./check.sh {pid} quick",
        "thorough_cmd": f"./check.sh {pid} thorough",
        "evidence_file": f"/verif/evidence/{pid}.json",
        "replay_cmd_template": "cat {path}",
        "engine": c.get("engine", "tlc+go-harness"),
        "level_claimed": {"category": c.get("category", "model_checking"), "text": c["text"], "design_ref": c.get("design_ref", "DESIGN.md §5 " + pid)},
        "level_note": c["note"],
        "technique": c["technique"],
    })
na = [{"property_id": pid, "reason": src['not_applicable'].get(pid, "check not built yet in this round; see DESIGN.md §9 build order")} for pid in ids if pid not in src['checks']]
commits = subprocess.run(['git','-C','/repo','log','--format=%H %s'],capture_output=True,text=True).stdout.splitlines()
hook_commits = [l.split()[0] for l in commits if ' verif hooks:' in l]
m = {
 "version": 1,
 "setup_cmd": "./setup.sh",
 "hooks": {"guard": "verif", "enable": "go build -tags verif (the harness module /verif/harness replaces storj.io/drpc by /repo and is rebuilt by check.sh on every run)",
           "baseline_off_cmd": "/verif/scripts/baseline_off.sh /repo", "source_commits": hook_commits, "add_only": True},
 "engines": src["engines"],
 "checks": checks,
 "notes": src["notes"],
 "not_applicable": na,
}
json.dump(m, open(ROOT + '/MANIFEST.json','w'), indent=1)
print("checks:", [c['property_id'] for c in checks], "n/a:", [n['property_id'] for n in na])
