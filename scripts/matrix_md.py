#!/usr/bin/env python3
# Renders /verif/seeded/RESULTS.txt (written by detect_matrix.sh) as the detection matrix of DESIGN.md §10.5.
import json, os, re, sys
rows = {}
for l in open('/verif/seeded/RESULTS.txt'):
    p = l.rstrip('\n').split(' ', 2)
    if len(p) < 2: continue
    rows[p[0]] = (p[1], p[2] if len(p) > 2 else '')
out = ['| change | what it does (from its author) | quick check of its property | first report |', '|---|---|---|---|']
caught = missed = 0
for id in sorted(rows):
    rc, sig = rows[id]
    try:
        m = json.load(open(f'/verif/seeded/{id}/meta.json'))
        summ = re.sub(r'\s+', ' ', m.get('summary') or '')
    except Exception:
        summ = ''
    summ = summ.replace('|', '/')
    if len(summ) > 230: summ = summ[:227] + '...'
    verdict = {'exit=1': 'caught', 'exit=0': '**missed**', 'exit=2': 'inconclusive'}.get(rc, rc)
    if rc == 'exit=1': caught += 1
    elif rc == 'exit=0': missed += 1
    out.append(f'| {id} | {summ} | {verdict} | {sig.replace("|", "/")[:150]} |')
out.append('')
out.append(f'{caught} of {len(rows)} caught by the quick tier, {missed} missed.')
print('\n'.join(out))
