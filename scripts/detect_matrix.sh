#!/bin/bash
# usage: detect_matrix.sh [parallel]  -- every seeded change against the quick check of its property, N at a time;
# one line per change in /verif/seeded/RESULTS.txt (id, exit code of the check, first violation signature)
N=${1:-3}
ls -d /verif/seeded/C*/ | xargs -n1 basename | xargs -P $N -I{} bash -c '
  id={}; p=${id:0:3}
  out=$(VERIF_OUT_DIR=/tmp/verif-mutant-out/$id /verif/scripts/try_mutant.sh /verif/seeded/$id/patch.diff $p quick 2>&1)
  rc=$(echo "$out" | grep -o "exit=[0-9]*" | tail -1)
  sig=$(echo "$out" | grep -m1 "signature" | sed "s/^ *signature: //" | cut -c1-150)
  echo "$id $rc $sig"
' | sort > /verif/seeded/RESULTS.txt
cat /verif/seeded/RESULTS.txt
