#!/usr/bin/env python3
# usage: show_rej.py <prefix> [max]   -- print the tail of rejected traces (development aid)
import json,glob,sys,collections
fs=sorted(glob.glob(f'/verif/out/{sys.argv[1]}-violation-*.json'), key=lambda f:int(f.split('-')[-1][:-5]))
mx=int(sys.argv[2]) if len(sys.argv)>2 else 3
seen=collections.Counter()
for f in fs:
    d=json.load(open(f)); r=d['replay']; n=r.get('first_unmatched_line')
    if n is None: print(f, d['signature']); continue
    key=(d['signature'], json.dumps(r['trace'][n]['stim']))
    seen[key]+=1
    if seen[key]>1 or len(seen)>mx: continue
    print('==',f,d['signature'],'line',n)
    for i,l in enumerate(r['trace'][:n+1]):
        if i < n-12: continue
        o=l['obs']
        print(i, json.dumps(l['stim']), json.dumps(o.get('app')), json.dumps(o.get('lib')), 'closed',o.get('closed'), o.get('tclose'), json.dumps(o.get('neww')), o.get('hmeta'))
for k,v in seen.items(): print(v,k)
