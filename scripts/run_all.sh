#!/bin/bash
# usage: run_all.sh <tier> [seed]  -- runs every registered check once, prints id, exit code and wall time
TIER=${1:-quick}; export VERIF_SEED=${2:-1}
for id in $(python3 -c "import json; print(' '.join(c['property_id'] for c in json.load(open('/verif/MANIFEST.json'))['checks']))"); do
  t0=$(date +%s); /verif/check.sh $id $TIER > /tmp/runall-$id.log 2>&1; rc=$?; t1=$(date +%s)
  echo "$id rc=$rc $((t1-t0))s $(grep -a -c '^KNOWN-FINDING' /tmp/runall-$id.log) known $(grep -a -c '^VIOLATION' /tmp/runall-$id.log) viol $(grep -a -c 'INCONCLUSIVE' /tmp/runall-$id.log) inconcl"
done
