#!/bin/sh
# usage: try_mutant.sh <patch.diff> <property id> [tier]   -- runs one check against a scratch worktree with the patch applied
P=$1; ID=$2; TIER=${3:-quick}
D=$(mktemp -d /tmp/mw-XXXXXX); rmdir $D
git -C /repo worktree add -q --detach $D HEAD || exit 3
if ! git -C $D apply "$P"; then echo "PATCH DOES NOT APPLY"; git -C /repo worktree remove --force $D; exit 3; fi
VERIF_REPO=$D VERIF_OUT_DIR=${VERIF_OUT_DIR:-/tmp/verif-mutant-out/$ID} /verif/check.sh $ID $TIER > /tmp/mutant-$ID-$$.log 2>&1; rc=$?
grep -a -m1 -A1 "^VIOLATION" /tmp/mutant-$ID-$$.log | cut -c1-260; grep -a -m1 "INCONCLUSIVE" /tmp/mutant-$ID-$$.log | cut -c1-200; tail -1 /tmp/mutant-$ID-$$.log | cut -c1-250
echo "exit=$rc"
git -C /repo worktree remove --force $D
rm -f /tmp/mutant-$ID-$$.log
exit $rc
