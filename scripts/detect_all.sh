#!/bin/bash
# runs every confirmed seeded mutant against the check of the property it breaks; prints one line per mutant
for d in /verif/seeded/*/; do
  id=$(basename $d); p=${id:0:3}
  if [ -n "$1" ] && ! echo "$@" | grep -qw $p; then continue; fi
  if ! grep -q "\"$p\"" /verif/MANIFEST.json 2>/dev/null || ! python3 -c "import json,sys; sys.exit(0 if any(c['property_id']=='$p' for c in json.load(open('/verif/MANIFEST.json'))['checks']) else 1)"; then echo "$id: no check registered"; continue; fi
  out=$(/verif/scripts/try_mutant.sh $d/patch.diff $p quick 2>&1)
  rc=$(echo "$out" | grep -o "exit=[0-9]*" | tail -1)
  sig=$(echo "$out" | grep -m1 "signature" | cut -c1-160)
  echo "$id: $rc $sig"
done
