#!/bin/bash
# usage: sweep.sh <tier> "<seeds>" [ids...]  -- runs checks of this checkout (not /verif's) for several seeds; evidence and
# replays go to scratch directories, so a sweep never touches the committed evidence
HERE=$(cd "$(dirname "$0")/.." && pwd)
TIER=$1; SEEDS=$2; shift 2
IDS=${@:-$(python3 -c "import json; print(' '.join(c['property_id'] for c in json.load(open('$HERE/MANIFEST.json'))['checks']))")}
export VERIF_EVIDENCE_DIR=$(mktemp -d /tmp/sweep-ev-XXXX) VERIF_OUT_DIR=$(mktemp -d /tmp/sweep-out-XXXX)
for s in $SEEDS; do
  for id in $IDS; do
    t0=$(date +%s); VERIF_SEED=$s nice -n 5 $HERE/check.sh $id $TIER > $VERIF_OUT_DIR/log-$id-$s.txt 2>&1; rc=$?; t1=$(date +%s)
    echo "seed=$s $id rc=$rc $((t1-t0))s $(grep -a -c '^KNOWN-FINDING' $VERIF_OUT_DIR/log-$id-$s.txt) known $(grep -a -c '^VIOLATION' $VERIF_OUT_DIR/log-$id-$s.txt) viol $(grep -a -c 'INCONCLUSIVE' $VERIF_OUT_DIR/log-$id-$s.txt) inconcl $(grep -a -m1 'signature' $VERIF_OUT_DIR/log-$id-$s.txt | cut -c1-160)"
  done
done
echo "logs: $VERIF_OUT_DIR"
