#!/bin/sh
# Builds the harness offline from files on disk and parses every specification.
set -e
ROOT=${VERIF_ROOT:-$(cd "$(dirname "$0")" && pwd)}
export VERIF_ROOT=$ROOT
cd $ROOT/harness
export GOFLAGS=-mod=mod GOPROXY=off GOSUMDB=off GOTOOLCHAIN=local
mkdir -p $ROOT/bin $ROOT/out $ROOT/evidence
go1.26 build -tags verif -o $ROOT/bin/verif ./cmd/verif
$ROOT/bin/verif selftest
