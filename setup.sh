#!/bin/sh
# Builds the harness offline from files on disk and parses every specification.
set -e
cd /verif/harness
export GOFLAGS=-mod=mod GOPROXY=off GOSUMDB=off GOTOOLCHAIN=local
mkdir -p /verif/bin /verif/out /verif/evidence
go1.26 build -tags verif -o /verif/bin/verif ./cmd/verif
/verif/bin/verif selftest
