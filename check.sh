#!/bin/sh
# usage: check.sh <property id> <quick|thorough>
# Rebuilds the harness against /repo's current working tree (build tag verif) and runs one check.
set -u
ID=$1; TIER=${2:-quick}
cd /verif/harness || exit 2
export GOFLAGS=-mod=mod GOPROXY=off GOSUMDB=off GOTOOLCHAIN=local GOMAXPROCS=${GOMAXPROCS:-16}
mkdir -p /verif/bin /verif/out /verif/evidence
BIN=/verif/bin/verif-$ID
if ! go1.26 build -tags verif -o "$BIN" ./cmd/verif 2>/verif/out/build-$ID.log; then
  # the tree under /repo does not build with the hooks on: nothing can be decided
  cat /verif/out/build-$ID.log >&2
  echo "INCONCLUSIVE property=$ID harness does not build against /repo" >&2
  exit 2
fi
exec "$BIN" check "$ID" --tier "$TIER"
