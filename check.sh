#!/bin/sh
# usage: check.sh <property id> <quick|thorough>
# Rebuilds the harness against /repo's current working tree (build tag verif) and runs one check.
# VERIF_REPO=<dir> (testing the machinery only) builds against another checkout of storj/drpc instead.
set -u
ID=$1; TIER=${2:-quick}
ROOT=${VERIF_ROOT:-$(cd "$(dirname "$0")" && pwd)}   # the checkout this script lives in (normally /verif)
export VERIF_ROOT=$ROOT
cd $ROOT/harness || exit 2
export GOFLAGS=-mod=mod GOPROXY=off GOSUMDB=off GOTOOLCHAIN=local GOMAXPROCS=${GOMAXPROCS:-16}
mkdir -p $ROOT/bin $ROOT/out $ROOT/evidence
BIN=$ROOT/bin/verif-$ID
MODFLAG=
if [ -n "${VERIF_REPO:-}" ] && [ "$VERIF_REPO" != /repo ]; then
  T=$(mktemp -d /tmp/verif-mod-XXXXXX)
  sed "s#=> /repo#=> $VERIF_REPO#" go.mod > "$T/go.mod"; cp go.sum "$T/go.sum"
  MODFLAG="-modfile=$T/go.mod"
  BIN=$T/verif-$ID
  export VERIF_REPO VERIF_EVIDENCE_DIR="${VERIF_EVIDENCE_DIR:-$T/evidence}" VERIF_OUT_DIR="${VERIF_OUT_DIR:-/tmp/verif-mutant-out}"
  trap 'rm -rf "$T"' EXIT
fi
if ! go1.26 build $MODFLAG -tags verif -o "$BIN" ./cmd/verif 2>$ROOT/out/build-$ID.log; then
  # the tree under /repo does not build with the hooks on: nothing can be decided
  cat $ROOT/out/build-$ID.log >&2
  echo "INCONCLUSIVE property=$ID harness does not build against the repository" >&2
  exit 2
fi
if [ -n "$MODFLAG" ]; then
  "$BIN" check "$ID" --tier "$TIER"; exit $?
fi
exec "$BIN" check "$ID" --tier "$TIER"
